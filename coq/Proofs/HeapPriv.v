(* Proofs/HeapPriv.v -- the invariant behind "deletion of an object's
   properties is refused": every instance attribute of every library object
   on the heap has a private (underscore) name.  It holds of the empty heap
   and is preserved by EVERY operation of the model (including assignment to
   private attributes), so `del obj.<public name>` always finds nothing to
   delete and raises AttributeError.                                         *)
From Coq Require Import NArith ZArith String Bool Arith List Lia.
From V Require Import Model.Heap Model.HeapOps Model.HeapApi Model.HeapRun Spec.HeapSpec.
From V Require Import Proofs.HeapFacts Proofs.HeapInterp Proofs.HeapApiFacts Proofs.HeapStoreFacts Proofs.HeapExec.
Import ListNotations.
Open Scope nat_scope.

Lemma priv_nil : private_attrs [].
Proof. constructor. Qed.

Lemma priv_get : forall h l nd, private_attrs h -> get h l = Some nd -> private_node nd.
Proof.
  unfold private_attrs, get. intros h l nd P E. rewrite Forall_forall in P. apply P.
  eapply nth_error_In; eauto.
Qed.

Lemma priv_alloc : forall h n h1 l, private_attrs h -> private_node n -> alloc h n = (h1, l) -> private_attrs h1.
Proof.
  intros h n h1 l P Pn E. apply alloc_spec in E. destruct E; subst.
  unfold private_attrs. apply Forall_app. split; auto.
Qed.

Lemma priv_upd : forall h l n, private_attrs h -> private_node n -> private_attrs (upd h l n).
Proof.
  unfold private_attrs. induction h as [|x t IH]; intros l n P Pn; simpl; auto.
  inversion P; subst. destruct l; constructor; auto.
Qed.

Lemma priv_set_item : forall h l k v h', private_attrs h -> set_item h l k v = Some h' -> private_attrs h'.
Proof.
  unfold set_item. intros h l k v h' P H.
  destruct (get h l) as [[m|xs|c fs|m]|]; inversion H; apply priv_upd; simpl; auto.
Qed.

Lemma priv_del_item : forall h l k h', private_attrs h -> del_item h l k = Some h' -> private_attrs h'.
Proof.
  unfold del_item. intros h l k h' P H.
  destruct (get h l) as [[m|xs|c fs|m]|]; try discriminate.
  destruct (assoc k m); inversion H. apply priv_upd; simpl; auto.
Qed.

Lemma priv_append_item : forall h l v h', private_attrs h -> append_item h l v = Some h' -> private_attrs h'.
Proof.
  unfold append_item. intros h l v h' P H.
  destruct (get h l) as [[m|xs|c fs|m]|]; inversion H; apply priv_upd; simpl; auto.
Qed.

Lemma priv_update_items : forall m h l h', private_attrs h -> update_items h l m = Some h' -> private_attrs h'.
Proof.
  induction m as [|[k v] r IH]; simpl; intros h l h' P H.
  - destruct (get h l) as [[?|?|? ?|?]|]; inversion H; subst; auto.
  - destruct (set_item h l k v) eqn:E; try discriminate. eapply IH; [|eauto]. eapply priv_set_item; eauto.
Qed.

Lemma priv_extend_items : forall ys h l h', private_attrs h -> extend_items h l ys = Some h' -> private_attrs h'.
Proof.
  induction ys as [|y r IH]; simpl; intros h l h' P H.
  - destruct (get h l) as [[?|?|? ?|?]|]; inversion H; subst; auto.
  - destruct (append_item h l y) eqn:E; try discriminate. eapply IH; [|eauto]. eapply priv_append_item; eauto.
Qed.

Lemma assoc_set_keys : forall (P : ustring -> Prop) k v m,
  P k -> Forall (fun kv => P (fst kv)) m -> Forall (fun kv : ustring * val => P (fst kv)) (assoc_set k v m).
Proof.
  induction m as [|[k' v'] r IH]; simpl; intros Pk F.
  - constructor; auto.
  - inversion F; subst. destruct (ustr_eqb k k'); constructor; auto.
Qed.

Lemma assoc_del_keys : forall (P : ustring -> Prop) k m,
  Forall (fun kv => P (fst kv)) m -> Forall (fun kv : ustring * val => P (fst kv)) (assoc_del k m).
Proof.
  induction m as [|[k' v'] r IH]; simpl; intros F; auto.
  inversion F; subst. destruct (ustr_eqb k k'); auto.
Qed.

Lemma priv_set_field : forall h l k v h',
  private_attrs h -> setattr_allowed k = true -> set_field h l k v = Some h' -> private_attrs h'.
Proof.
  unfold set_field. intros h l k v h' P Hk H.
  destruct (get h l) as [[m|xs|c fs|m]|] eqn:E; inversion H. apply priv_upd; auto.
  assert (Pn := priv_get _ _ _ P E). simpl in *. apply (assoc_set_keys (fun k => setattr_allowed k = true)); auto.
Qed.

Lemma priv_del_field : forall h l k h', private_attrs h -> del_field h l k = Some h' -> private_attrs h'.
Proof.
  unfold del_field. intros h l k h' P H.
  destruct (get h l) as [[m|xs|c fs|m]|] eqn:E; try discriminate.
  destruct (assoc k fs); inversion H. apply priv_upd; auto.
  assert (Pn := priv_get _ _ _ P E). simpl in *. apply (assoc_del_keys (fun k => setattr_allowed k = true)); auto.
Qed.

Lemma combine_keys : forall (P : ustring -> Prop) ks (vs : list val),
  Forall P ks -> Forall (fun kv => P (fst kv)) (combine ks vs).
Proof.
  induction ks as [|k r IH]; intros vs F; simpl; auto.
  destruct vs; auto. inversion F; subst. constructor; auto.
Qed.

Lemma priv_rebuild : forall nd s vs, private_node nd -> shape_of nd = Some s -> private_node (rebuild s vs).
Proof.
  intros [m|xs|c fs|m] s vs P E; inversion E; subst; simpl; auto.
  apply (combine_keys (fun k => setattr_allowed k = true)). simpl in P. rewrite Forall_forall in *. intros k Hk.
  apply in_map_iff in Hk. destruct Hk as ([k' v] & <- & Hin). apply (P _ Hin).
Qed.

(* ------------------------------------------------------------------ *)
(* generic case analysis on the hypothesis that describes the run       *)

Ltac scrut t :=
  match t with
  | context [match ?x with _ => _ end] => scrut x
  | _ => t
  end.

(* the scrutinee in evaluation position of the run described by H; matches inside arguments
   are left alone (Ltac matches `match` patterns modulo delta: applications are excluded explicitly) *)
Ltac head_scrut t :=
  lazymatch t with
  | ?f ?a => t
  | match ?x with _ => _ end => head_scrut x
  | _ => t
  end.

Ltac brk H :=
  lazymatch type of H with
  | ?f ?a = _ => fail
  | match ?x with _ => _ end = _ => let y := head_scrut x in destruct y eqn:?
  end.

Ltac inv_eq :=
  match goal with
  | H : (_, _) = (_, _) |- _ => inversion H; subst; clear H
  | H : Some _ = Some _ |- _ => inversion H; subst; clear H
  | H : None = Some _ |- _ => discriminate H
  | H : Some _ = None |- _ => discriminate H
  end.

Ltac crunch H := repeat (first [ inv_eq | brk H; try cbv beta iota in H ]).

Lemma priv_alloc' : forall h n h1 l, alloc h n = (h1, l) -> private_attrs h -> private_node n -> private_attrs h1.
Proof. intros. eapply priv_alloc; eauto. Qed.

Create HintDb priv.
#[export] Hint Resolve priv_alloc' priv_set_item priv_del_item priv_append_item priv_update_items
  priv_extend_items priv_del_field : priv.
#[export] Hint Extern 1 (private_node _) => (simpl; solve [auto | repeat constructor]) : priv.

(* forward saturation: every heap produced by an equation in the context is private *)
Ltac know h1 := lazymatch goal with | _ : private_attrs h1 |- _ => fail | _ => idtac end.
Ltac fwd1 :=
  match goal with
  | P : private_attrs ?h, E : ?t = (?h1, _) |- _ =>
      is_var h1; know h1; lazymatch t with context [h] => idtac end;
      assert (private_attrs h1) by (solve [eauto 2 with priv])
  | P : private_attrs ?h, E : ?t = Some ?h1 |- _ =>
      is_var h1; know h1; lazymatch t with context [h] => idtac end;
      assert (private_attrs h1) by (solve [eauto 2 with priv])
  end.
Ltac fin := repeat fwd1; first [assumption | solve [eauto 2 with priv]].

(* ------------------------------------------------------------------ *)
(* Heap.v: copies                                                       *)

Lemma mapM_priv : forall f, (forall v h h' r, private_attrs h -> f v h = (h', r) -> private_attrs h') ->
  forall vs h h' r, private_attrs h -> mapM f vs h = (h', r) -> private_attrs h'.
Proof.
  intros f Hf. induction vs as [|v r IH]; simpl; intros h h' res P H.
  - inversion H; subst; auto.
  - destruct (f v h) as [h1 r1] eqn:E1. assert (P1 := Hf _ _ _ _ P E1).
    destruct r1; try (inversion H; subst; auto; fail).
    destruct (mapM f r h1) as [h2 [cs|e]] eqn:E2; inversion H; subst; eauto.
Qed.

Lemma deepcopy_priv : forall n v h h' r, private_attrs h -> deepcopy n v h = (h', r) -> private_attrs h'.
Proof.
  induction n as [|n IH]; intros v h h' r P H; destruct v as [a|l]; simpl in H;
    try (inversion H; subst; auto; fail).
  destruct (get h l) as [nd|] eqn:Eg; [|inversion H; subst; auto].
  destruct (shape_of nd) as [s|] eqn:Es; [|inversion H; subst; auto].
  destruct (mapM (deepcopy n) (kids nd) h) as [h1 [vs|e]] eqn:Em; simpl in H.
  - destruct (alloc h1 (rebuild s vs)) as [h2 l2] eqn:Ea. inversion H; subst.
    eapply priv_alloc; [eapply mapM_priv; eauto | | eauto].
    eapply priv_rebuild; eauto. eapply priv_get; eauto.
  - inversion H; subst. eapply mapM_priv; eauto.
Qed.

Lemma shallow_copy_priv : forall v h h' r, private_attrs h -> shallow_copy v h = (h', r) -> private_attrs h'.
Proof.
  unfold shallow_copy. intros v h h' r P H. destruct v as [a|l]; [inversion H; subst; auto|].
  destruct (get h l) as [nd|] eqn:E; [|inversion H; subst; auto].
  assert (Pn := priv_get _ _ _ P E).
  destruct nd; try (inversion H; subst; auto; fail);
    match type of H with (let (_, _) := alloc ?hh ?nn in _) = _ => destruct (alloc hh nn) as [h1 l1] eqn:Ea end;
    inversion H; subst; eapply priv_alloc; eauto.
Qed.

Lemma copy_at_priv : forall cm n v h h' r, private_attrs h -> copy_at cm n v h = (h', r) -> private_attrs h'.
Proof.
  intros [| |] n v h h' r P H; simpl in H.
  - eapply deepcopy_priv; eauto.
  - eapply shallow_copy_priv; eauto.
  - inversion H; subst; auto.
Qed.

Lemma get_dict_priv : forall v h h' r, private_attrs h -> get_dict v h = (h', r) -> private_attrs h'.
Proof. unfold get_dict. intros v h h' r P H. crunch H; fin. Qed.

#[export] Hint Resolve deepcopy_priv shallow_copy_priv copy_at_priv get_dict_priv : priv.

(* ------------------------------------------------------------------ *)
(* HeapOps.v: the interpreter                                           *)

Section InterpPriv.
  Variable vt : variant.
  Variable W : world.
  Variable rec : req -> heap -> heap * res.
  Variable fuel : nat.
  Hypothesis Hrec : forall q h h' r, private_attrs h -> rec q h = (h', r) -> private_attrs h'.

  Lemma list_loop_priv : forall mk r items h h' res,
    private_attrs h -> list_loop rec mk r items h = (h', res) -> private_attrs h'.
  Proof.
    induction items as [|it rest IH]; simpl; intros h h' res P H; unfold bindv in H; crunch H; fin.
  Qed.

  Lemma clean_list_priv : forall mk v h h' res,
    private_attrs h -> clean_list rec mk v h = (h', res) -> private_attrs h'.
  Proof.
    unfold clean_list. intros mk v h h' res P H.
    match type of H with (match ?X with _ => _ end) = _ => destruct X as [[|i its]|] end;
      try (inversion H; subst; auto; fail).
    destruct (alloc h (NList [])) as [h1 r] eqn:Ea.
    eapply list_loop_priv; [|eauto]. fin.
  Qed.

  Lemma clean_hashes_priv : forall v h h' res,
    private_attrs h -> clean_hashes v h = (h', res) -> private_attrs h'.
  Proof. unfold clean_hashes, bindv, lift. intros v h h' res P H. crunch H; fin. Qed.

  Lemma ext_loop_priv : forall v21 c ents h h' res,
    private_attrs h -> ext_loop W rec v21 c ents h = (h', res) -> private_attrs h'.
  Proof.
    induction ents as [|[key sub] rest IH]; simpl; intros h h' res P H; unfold bindv in H; crunch H; fin.
  Qed.

  Lemma clean_ext_priv : forall v21 v h h' res,
    private_attrs h -> clean_ext vt W rec fuel v21 v h = (h', res) -> private_attrs h'.
  Proof.
    unfold clean_ext, bindv. intros v21 v h h' res P H. crunch H; try fin.
    all: eapply ext_loop_priv; [|eauto]; fin.
  Qed.

  Lemma obs_loop_priv : forall v21 c vr ents h h' res,
    private_attrs h -> obs_loop rec v21 c vr ents h = (h', res) -> private_attrs h'.
  Proof.
    induction ents as [|[key obj] rest IH]; simpl; intros h h' res P H; unfold bindv in H; crunch H; fin.
  Qed.

  Lemma clean_obs_priv : forall v21 v h h' res,
    private_attrs h -> clean_obs vt rec fuel v21 v h = (h', res) -> private_attrs h'.
  Proof.
    unfold clean_obs, bindv. intros v21 v h h' res P H. crunch H; try fin.
    all: eapply obs_loop_priv; [|eauto]; fin.
  Qed.

  Lemma clean_priv : forall k v h h' res,
    private_attrs h -> clean vt W rec fuel k v h = (h', res) -> private_attrs h'.
  Proof.
    intros k v h h' res P H. destruct k; simpl in H;
      eauto using clean_list_priv, clean_hashes_priv, clean_ext_priv, clean_obs_priv, get_dict_priv;
      unfold bindv in H; crunch H; fin.
  Qed.

  Lemma init_loop_priv : forall s sch props h h' res,
    private_attrs h -> init_loop rec s sch props h = (h', res) -> private_attrs h'.
  Proof.
    induction props as [|[name v] rest IH]; simpl; intros h h' res P H; unfold bindv in H; crunch H; fin.
  Qed.

  Lemma construct_body_priv : forall c sch m h h' res,
    private_attrs h -> construct_body W rec c sch m h = (h', res) -> private_attrs h'.
  Proof.
    unfold construct_body, bindv. intros c sch m h h' res P H.
    match type of H with (let (_, _) := alloc ?hh ?nn in _) = _ => destruct (alloc hh nn) as [h1 s] eqn:Ea end.
    match type of H with (let (_, _) := init_loop ?a ?b ?c ?d ?e in _) = _ =>
      destruct (init_loop a b c d e) as [h2 r2] eqn:Ei end.
    assert (P2 : private_attrs h2) by (eapply init_loop_priv; [|eauto]; fin).
    destruct r2; try (inversion H; subst; auto; fail).
    match type of H with context [alloc ?hx (NList [])] => set (h3 := hx) in * end.
    assert (P3 : private_attrs h3).
    { subst h3.
      match goal with |- context [update_items ?a ?b ?c] => destruct (update_items a b c) as [hu|] eqn:Eu end;
        (match goal with |- private_attrs (if ?c then _ else _) => destruct c end);
        try (match goal with |- private_attrs (match set_item ?a ?b ?c ?d with _ => _ end) =>
               destruct (set_item a b c d) eqn:? end);
        fin. }
    clearbody h3.
    assert (K : forall hx vrf, private_attrs hx -> Forall (fun kv => setattr_allowed (fst kv) = true) vrf ->
              (let (h4, o) := alloc hx (NObj c ((u "_inner", VR s) :: vrf)) in (h4, RVal (VR o))) = (h', res) ->
              private_attrs h').
    { intros hx vrf Px Fv Hx. destruct (alloc hx (NObj c ((u "_inner", VR s) :: vrf))) as [h4 o] eqn:Ea2.
      inversion Hx; subst. eapply priv_alloc; [exact Px | | exact Ea2]. simpl. constructor; [reflexivity | exact Fv]. }
    destruct (assoc (u "_valid_refs") m) as [r0|].
    - apply (K h3 [(u "_valid_refs", r0)] P3); [constructor; [reflexivity | constructor] | exact H].
    - destruct (mem_ustr c (observables W)).
      + destruct (alloc h3 (NList [])) as [hv lv] eqn:Eav.
        assert (Pv : private_attrs hv) by (eapply priv_alloc'; [exact Eav | exact P3 | simpl; auto]).
        apply (K hv [(u "_valid_refs", VR lv)] Pv); [constructor; [reflexivity | constructor] | exact H].
      + apply (K h3 [] P3); [constructor | exact H].
  Qed.

  Lemma ext_step_priv : forall ext ov h h' res,
    private_attrs h -> ext_step W rec ext ov h = (h', res) -> private_attrs h'.
  Proof.
    unfold ext_step, bindv. intros ext ov h h' res P H. crunch H; try fin.
    all: try (match goal with
              | E : set_field ?hb ?o ?k ?v = Some ?hc |- _ =>
                  assert (private_attrs hc) by (apply (priv_set_field hb o k v hc); [fin | reflexivity | exact E])
              end); fin.
  Qed.

  Lemma construct_full_priv : forall c sch m h h' res,
    private_attrs h -> construct_full W rec c sch m h = (h', res) -> private_attrs h'.
  Proof.
    unfold construct_full, bindv. intros c sch m0 h h' res P H.
    destruct (merge_custom h m0) as [m|]; [|inversion H; subst; auto].
    destruct (construct_body W rec c sch m h) as [h1 r1] eqn:Eb.
    assert (P1 := construct_body_priv _ _ _ _ _ _ P Eb).
    crunch H; eauto using ext_step_priv.
  Qed.

  Lemma construct_priv : forall c kw h h' res,
    private_attrs h -> construct W rec c kw h = (h', res) -> private_attrs h'.
  Proof.
    unfold construct, bindv. intros c kw h h' res P H.
    crunch H; try (eapply construct_full_priv; [|eassumption]); fin.
  Qed.

  Lemma parse_dict_priv : forall v ver ac h h' res,
    private_attrs h -> parse_dict W rec v ver ac h = (h', res) -> private_attrs h'.
  Proof. unfold parse_dict. intros v ver ac h h' res P H. crunch H; fin. Qed.

  Lemma parse_observable_priv : forall v vr ver ac h h' res,
    private_attrs h -> parse_observable vt W rec fuel v vr ver ac h = (h', res) -> private_attrs h'.
  Proof. unfold parse_observable, bindv. intros v vr ver ac h h' res P H. crunch H; fin. Qed.

  Lemma step_priv : forall q h h' res,
    private_attrs h -> step vt W rec fuel q h = (h', res) -> private_attrs h'.
  Proof.
    intros [k v|c kw|v ver ac|v vr ver ac] h h' res P H; simpl in H;
      eauto using clean_priv, construct_priv, parse_dict_priv, parse_observable_priv.
  Qed.
End InterpPriv.

Lemma interp_priv : forall vt W d n q h h' res,
  private_attrs h -> interp vt W d n q h = (h', res) -> private_attrs h'.
Proof.
  intros vt W d. induction n as [|n IH]; intros q h h' res P H; simpl in H.
  - inversion H; subst; auto.
  - eapply step_priv; eauto.
Qed.

(* ------------------------------------------------------------------ *)
(* HeapApi.v                                                            *)

Section ApiPriv.
  Variable vt : variant.
  Variable W : world.

  Lemma run_priv : forall q h h' res, private_attrs h -> run vt W q h = (h', res) -> private_attrs h'.
  Proof. unfold run. intros. eapply interp_priv; eauto. Qed.
  Hint Resolve run_priv : priv.

  Lemma new_version_priv : forall data kwargs h h' res,
    private_attrs h -> new_version vt W data kwargs h = (h', res) -> private_attrs h'.
  Proof. unfold new_version, bindv. intros data kwargs h h' res P H. crunch H; fin. Qed.
  Hint Resolve new_version_priv : priv.

  Lemma revoke_priv : forall data h h' res, private_attrs h -> revoke vt W data h = (h', res) -> private_attrs h'.
  Proof. unfold revoke. intros data h h' res P H. crunch H; fin. Qed.

  Lemma expand_one_priv : forall key ref e sels h h',
    private_attrs h -> expand_one key ref e sels h = Some h' -> private_attrs h'.
  Proof. induction sels as [|s rest IH]; simpl; intros h h' P H; crunch H; fin. Qed.
  Hint Resolve expand_one_priv : priv.

  Lemma expand_loop_priv : forall e ms h h', private_attrs h -> expand_loop e ms h = Some h' -> private_attrs h'.
  Proof. induction ms as [|m rest IH]; simpl; intros h h' P H; crunch H; fin. Qed.
  Hint Resolve expand_loop_priv : priv.

  Lemma expand_markings_priv : forall gm h h' res,
    private_attrs h -> expand_markings gm h = (h', res) -> private_attrs h'.
  Proof. unfold expand_markings, lift. intros gm h h' res P H. crunch H; fin. Qed.
  Hint Resolve expand_markings_priv : priv.

  Lemma compress_build_priv : forall g h h' ds, private_attrs h -> compress_build g h = (h', ds) -> private_attrs h'.
  Proof. induction g as [|[k ss] r IH]; simpl; intros h h' ds P H; crunch H; fin. Qed.
  Hint Resolve compress_build_priv : priv.

  Lemma compress_markings_priv : forall gm h h' res,
    private_attrs h -> compress_markings gm h = (h', res) -> private_attrs h'.
  Proof. unfold compress_markings. intros gm h h' res P H. crunch H; fin. Qed.
  Hint Resolve compress_markings_priv : priv.

  Lemma add_loop_priv : forall g ss ms h h', private_attrs h -> add_loop g ss ms h = Some h' -> private_attrs h'.
  Proof. induction ms as [|m rest IH]; simpl; intros h h' P H; crunch H; fin. Qed.
  Hint Resolve add_loop_priv : priv.

  Lemma new_version_gm_priv : forall obj c h h' res,
    private_attrs h -> new_version_gm vt W obj c h = (h', res) -> private_attrs h'.
  Proof. unfold new_version_gm. intros obj c h h' res P H. crunch H; fin. Qed.
  Hint Resolve new_version_gm_priv : priv.

  Lemma granular_add_priv : forall obj marking selectors h h' res,
    private_attrs h -> granular_add vt W obj marking selectors h = (h', res) -> private_attrs h'.
  Proof. unfold granular_add, bindv. intros obj marking selectors h h' res P H. crunch H; fin. Qed.
  Hint Resolve granular_add_priv : priv.

  Lemma clear_loop_priv : forall mr lg sels ems h h', private_attrs h -> clear_loop mr lg sels ems h = Some h' -> private_attrs h'.
  Proof. induction ems as [|[a|d] rest IH]; simpl; intros h h' P H; crunch H; fin. Qed.
  Hint Resolve clear_loop_priv : priv.

  Lemma granular_clear_f_priv : forall mr lg obj selectors h h' res,
    private_attrs h -> granular_clear_f vt W mr lg obj selectors h = (h', res) -> private_attrs h'.
  Proof. unfold granular_clear_f, bindv. intros mr lg obj selectors h h' res P H. crunch H; fin. Qed.
  Hint Resolve granular_clear_f_priv : priv.

  Lemma granular_clear_priv : forall obj selectors h h' res,
    private_attrs h -> granular_clear vt W obj selectors h = (h', res) -> private_attrs h'.
  Proof. unfold granular_clear. intros. eapply granular_clear_f_priv; eauto. Qed.
  Hint Resolve granular_clear_priv : priv.

  Lemma remove_loop_priv : forall t sel ms h h', private_attrs h -> remove_loop t sel ms h = Some h' -> private_attrs h'.
  Proof. induction ms as [|m rest IH]; simpl; intros h h' P H; crunch H; fin. Qed.
  Hint Resolve remove_loop_priv : priv.

  Lemma granular_remove_priv : forall obj marking selectors h h' res,
    private_attrs h -> granular_remove vt W obj marking selectors h = (h', res) -> private_attrs h'.
  Proof. unfold granular_remove, bindv. intros obj marking selectors h h' res P H. crunch H; fin. Qed.
  Hint Resolve granular_remove_priv : priv.

  Lemma granular_set_f_priv : forall mr lg obj marking selectors h h' res,
    private_attrs h -> granular_set_f vt W mr lg obj marking selectors h = (h', res) -> private_attrs h'.
  Proof. unfold granular_set_f, bindv. intros mr lg obj marking selectors h h' res P H. crunch H; fin. Qed.
  Hint Resolve granular_set_f_priv : priv.

  Lemma granular_set_priv : forall obj marking selectors h h' res,
    private_attrs h -> granular_set vt W obj marking selectors h = (h', res) -> private_attrs h'.
  Proof. unfold granular_set. intros. eapply granular_set_f_priv; eauto. Qed.
  Hint Resolve granular_set_priv : priv.

  Lemma deduplicate_priv : forall lst h h' res,
    private_attrs h -> deduplicate lst h = (h', res) -> private_attrs h'.
  Proof. unfold deduplicate. intros lst h h' res P H. crunch H; fin. Qed.

  Lemma object_add_priv : forall obj marking h h' res,
    private_attrs h -> object_add vt W obj marking h = (h', res) -> private_attrs h'.
  Proof. unfold object_add. intros obj marking h h' res P H. crunch H; fin. Qed.
  Hint Resolve object_add_priv : priv.

  Lemma object_clear_priv : forall obj h h' res,
    private_attrs h -> object_clear vt W obj h = (h', res) -> private_attrs h'.
  Proof. unfold object_clear. intros. fin. Qed.
  Hint Resolve object_clear_priv : priv.

  Lemma object_remove_priv : forall obj marking h h' res,
    private_attrs h -> object_remove vt W obj marking h = (h', res) -> private_attrs h'.
  Proof. unfold object_remove. intros obj marking h h' res P H. crunch H; fin. Qed.
  Hint Resolve object_remove_priv : priv.

  Lemma object_set_priv : forall obj marking h h' res,
    private_attrs h -> object_set vt W obj marking h = (h', res) -> private_attrs h'.
  Proof. unfold object_set, bindv. intros obj marking h h' res P H. crunch H; fin. Qed.
  Hint Resolve object_set_priv : priv.

  Lemma api_markings_priv : forall fn obj marking selectors h h' res,
    private_attrs h -> api_markings vt W fn obj marking selectors h = (h', res) -> private_attrs h'.
  Proof. unfold api_markings. intros fn obj marking selectors h h' res P H. destruct fn; crunch H; fin. Qed.

  Lemma remove_custom_stix_priv : forall obj h h' res,
    private_attrs h -> remove_custom_stix vt W obj h = (h', res) -> private_attrs h'.
  Proof. unfold remove_custom_stix. intros obj h h' res P H. crunch H; fin. Qed.

  Lemma factory_new_priv : forall kw la h h' res,
    private_attrs h -> factory_new kw la h = (h', res) -> private_attrs h'.
  Proof. unfold factory_new. intros kw la h h' res P H. crunch H; fin. Qed.

  Lemma create_loop_priv : forall p kw lps h h' res,
    private_attrs h -> create_loop p kw lps h = (h', res) -> private_attrs h'.
  Proof. induction lps as [|lp rest IH]; simpl; intros h h' res P H; crunch H; fin. Qed.
  Hint Resolve create_loop_priv : priv.

  Lemma factory_create_priv : forall f cls kwargs h h' res,
    private_attrs h -> factory_create vt W f cls kwargs h = (h', res) -> private_attrs h'.
  Proof. unfold factory_create, bindv. intros f cls kwargs h h' res P H. crunch H; fin. Qed.

  Lemma bundle_priv : forall cls args kw h h' res,
    private_attrs h -> bundle vt W cls args kw h = (h', res) -> private_attrs h'.
  Proof. unfold bundle. intros cls args kw h h' res P H. crunch H; fin. Qed.

  Lemma store_new_priv : forall h h' s, private_attrs h -> store_new h = (h', s) -> private_attrs h'.
  Proof. unfold store_new. intros h h' s P H. crunch H; fin. Qed.

  Lemma store_add_priv : forall n d data h h' res,
    private_attrs h -> store_add vt W n d data h = (h', res) -> private_attrs h'.
  Proof.
    induction n as [|n IH]; intros d data h h' res P H; simpl in H.
    - inversion H; subst; auto.
    - assert (M : forall xs h h' res, private_attrs h ->
        (fix go (xs : list val) (h : heap) {struct xs} : heap * Heap.res :=
           match xs with
           | [] => (h, RVal (VA ANone))
           | x :: r => bindv (store_add vt W n d x h) (fun _ h1 => go r h1)
           end) xs h = (h', res) -> private_attrs h').
      { clear H P. induction xs as [|x r IHx]; intros h0 h0' res0 P0 H.
        - inversion H; subst; auto.
        - unfold bindv in H. destruct (store_add vt W n d x h0) as [h1 r1] eqn:E1.
          assert (P1 := IH _ _ _ _ _ P0 E1).
          destruct r1; try (inversion H; subst; auto; fail). eauto. }
      case_in H; [eapply M; eauto|].
      case_in H; [|inversion H; subst; auto].
      case_in H; [eapply M; eauto|].
      unfold bindv, lift in H. crunch H; fin.
  Qed.

  Lemma store_add_top_priv : forall d data h h' res,
    private_attrs h -> store_add_top vt W d data h = (h', res) -> private_attrs h'.
  Proof. unfold store_add_top. intros. eapply store_add_priv; eauto. Qed.

  Lemma py_setattr_priv : forall o name x h h' res,
    private_attrs h -> py_setattr o name x h = (h', res) -> private_attrs h'.
  Proof.
    unfold py_setattr, lift. intros o name x h h' res P H. destruct o as [a|l]; [inversion H; subst; auto|].
    destruct (setattr_allowed name) eqn:En; [|inversion H; subst; auto].
    destruct (set_field h l name x) eqn:Es; inversion H; subst; auto. eapply priv_set_field; eauto.
  Qed.

  Lemma py_delattr_priv : forall o name h h' res,
    private_attrs h -> py_delattr o name h = (h', res) -> private_attrs h'.
  Proof. unfold py_delattr. intros o name h h' res P H. crunch H; fin. Qed.

  (* C13: deletion of a property (any public name) of ANY library object is refused *)
  Lemma delattr_public : forall o name h,
    private_attrs h -> setattr_allowed name = false -> py_delattr o name h = (h, RExc "AttributeError").
  Proof.
    unfold py_delattr, del_field. intros o name h P Hn. destruct o as [a|l]; auto.
    destruct (get h l) as [[m|xs|c fs|m]|] eqn:E; auto.
    assert (Pn := priv_get _ _ _ P E). simpl in Pn.
    assert (A : assoc name fs = None).
    { clear E. induction fs as [|[k v] r IH]; simpl; auto. inversion Pn; subst. simpl in *.
      rewrite (not_underscore_neq name k Hn); auto. }
    rewrite A. reflexivity.
  Qed.
End ApiPriv.

(* ------------------------------------------------------------------ *)
(* HeapRun.v: every operation, every history                            *)

Lemma build_x_priv : forall e t h h' v, private_attrs h -> build_x e t h = (h', v) -> private_attrs h'.
Proof.
  intro e. fix IH 1. intros t h h' v P H. destruct t as [a|m|xs|i]; simpl in H.
  - inversion H; subst; auto.
  - match type of H with (let (_, _) := ?f m h in _) = _ => destruct (f m h) as [h1 m'] eqn:Eg end.
    destruct (alloc h1 (NDict m')) as [h2 l] eqn:Ea. inversion H; subst.
    eapply priv_alloc'; [eauto | | simpl; auto].
    clear Ea H. revert h h1 m' P Eg.
    induction m as [|[k t] r IHm]; intros h h1 m' P Eg.
    + inversion Eg; subst; auto.
    + destruct (build_x e t h) as [ha va] eqn:Et.
      match type of Eg with (let (_, _) := ?f r ha in _) = _ => destruct (f r ha) as [hb rb] eqn:Er end.
      inversion Eg; subst. eapply IHm; [|eauto]. eapply IH; eauto.
  - match type of H with (let (_, _) := ?f xs h in _) = _ => destruct (f xs h) as [h1 xs'] eqn:Eg end.
    destruct (alloc h1 (NList xs')) as [h2 l] eqn:Ea. inversion H; subst.
    eapply priv_alloc'; [eauto | | simpl; auto].
    clear Ea H. revert h h1 xs' P Eg.
    induction xs as [|t r IHm]; intros h h1 xs' P Eg.
    + inversion Eg; subst; auto.
    + destruct (build_x e t h) as [ha va] eqn:Et.
      match type of Eg with (let (_, _) := ?f r ha in _) = _ => destruct (f r ha) as [hb rb] eqn:Er end.
      inversion Eg; subst. eapply IHm; [|eauto]. eapply IH; eauto.
  - inversion H; subst; auto.
Qed.

Section ExecPriv.
  Variable vt : variant.
  Variable W : world.

  Lemma exec_priv : forall o e h h' r, private_attrs h -> exec vt W o e h = (h', r) -> private_attrs h'.
  Proof.
    intros o e h h' r P. destruct o; unfold exec; intro H.
    - destruct (build_x e t h) as [h1 v] eqn:Eb. inversion H; subst. eapply build_x_priv; eauto.
    - eapply run_priv; eauto.
    - eapply bundle_priv; eauto.
    - apply bindv_inv in H. destruct H as [(h1 & v & Ea & H)|Ea].
      + eapply run_priv; [|eauto]. eapply get_dict_priv; eauto.
      + eapply get_dict_priv; eauto.
    - eapply run_priv; eauto.
    - eapply deepcopy_priv; eauto.
    - eapply new_version_priv; eauto.
    - eapply revoke_priv; eauto.
    - eapply expand_markings_priv; eauto.
    - eapply compress_markings_priv; eauto.
    - eapply granular_add_priv; eauto.
    - eapply granular_clear_priv; eauto.
    - eapply object_add_priv; eauto.
    - eapply object_remove_priv; eauto.
    - eapply object_clear_priv; eauto.
    - eapply factory_new_priv; eauto.
    - destruct kw as [i|]; [eapply factory_create_priv; eauto|].
      destruct (alloc h (NDict [])) as [h1 l] eqn:Ea. eapply factory_create_priv; [|eauto].
      eapply priv_alloc; eauto. simpl; auto.
    - destruct (store_new h) as [h1 s] eqn:Es. assert (P1 := store_new_priv _ _ _ P Es).
      destruct data as [i|]; [|inversion H; subst; auto].
      destruct (store_data h1 (VR s)) as [d|]; [|inversion H; subst; auto].
      destruct (truthy h1 (env_get e i)); [|inversion H; subst; auto].
      apply bindv_inv in H. destruct H as [(h2 & v & Ea & H)|Ea].
      + inversion H; subst. eapply store_add_top_priv; eauto.
      + eapply store_add_top_priv; eauto.
    - destruct (store_data h (env_get e s)) as [d|]; [|inversion H; subst; auto].
      eapply store_add_top_priv; eauto.
    - destruct (store_data h (env_get e s)) as [d|]; [|inversion H; subst; auto].
      apply store_get_same in H. subst; auto.
    - eapply py_setattr_priv; eauto.
    - eapply py_delattr_priv; eauto.
    - unfold py_setitem_obj in H. destruct (is_obj h (env_get e a)); inversion H; subst; auto.
    - eapply granular_remove_priv; eauto.
    - eapply granular_set_priv; eauto.
    - eapply object_set_priv; eauto.
    - eapply api_markings_priv; eauto.
    - eapply remove_custom_stix_priv; eauto.
    - eapply shallow_copy_priv; eauto.
    - eapply deduplicate_priv; eauto.
    - eapply granular_clear_f_priv; eauto.
    - eapply granular_set_f_priv; eauto.
  Qed.

  Lemma run_state_priv : forall ops e h e' h',
    private_attrs h -> run_state vt W ops e h = (e', h') -> private_attrs h'.
  Proof.
    induction ops as [|o rest IH]; simpl; intros e h e' h' P H.
    - inversion H; subst; auto.
    - destruct (exec vt W o e h) as [h1 r1] eqn:Ex. eapply IH; [|eauto]. eapply exec_priv; eauto.
  Qed.

  Hypothesis Hvt : HeapApiFacts.safe vt.

  (* with the invariant, deletion of public names joins the operations the frame covers *)
  Lemma exec_kept_d : forall o e h h' r,
    private_attrs h -> public_op_d o = true -> exec vt W o e h = (h', r) -> kept h h'.
  Proof.
    intros o e h h' r P Hp H. destruct o; try (eapply exec_kept; [exact Hvt | exact Hp | exact H]).
    simpl in Hp. apply negb_true_iff in Hp. unfold exec in H.
    rewrite (delattr_public _ _ _ P Hp) in H. inversion H; subst. apply kept_refl.
  Qed.

  Lemma run_state_kept_d : forall ops e h e' h',
    private_attrs h -> forallb public_op_d ops = true -> run_state vt W ops e h = (e', h') -> kept h h'.
  Proof.
    induction ops as [|o rest IH]; simpl; intros e h e' h' P Hp H.
    - inversion H. apply kept_refl.
    - apply andb_true_iff in Hp. destruct Hp as [Ho Hr].
      destruct (exec vt W o e h) as [h1 r1] eqn:Ex.
      eapply kept_trans; [eapply exec_kept_d; eauto | eapply IH; eauto]. eapply exec_priv; eauto.
  Qed.
End ExecPriv.
